"""C01 Completed means delivered: both ends agree, receiver holds all the data."""
LEVEL = "exploration"
import os
import stages, vlib


def scn(i, seed, **kw):
    s = {"case": "gsx%d" % i, "pull": False, "chunks": 24, "dupEvery": 0, "srcStore": False, "dstStore": False, "limits": [], "reqFin": False, "forcePause": False,
         "pauseSide": "", "pauseAt": 0, "bounceSide": "", "bounceAt": 0, "restartSide": "", "restartAt": 0, "seed": seed * 1000 + i}
    s.update(kw)
    return s


def gen(ctx, n, bounce_share=0.3):
    # a fixed core (every run): plain, duplicates, limits + finalization, per-channel stores with a same-process restart in both directions, one bounce per side
    out = [scn(0, ctx.seed, pull=False, chunks=12),
           scn(1, ctx.seed, pull=True, chunks=16, dupEvery=4, srcStore=True),
           scn(2, ctx.seed, pull=True, chunks=20, limits=[6000, 14000, 0], reqFin=True),
           scn(3, ctx.seed, pull=True, chunks=30, dstStore=True, restartSide="I", restartAt=4),
           scn(4, ctx.seed, pull=False, chunks=30, dstStore=True, srcStore=True, restartSide="I", restartAt=4),
           scn(5, ctx.seed, pull=False, chunks=30, dstStore=True, restartSide="R", restartAt=5),
           scn(6, ctx.seed, pull=False, chunks=30, bounceSide="I", bounceAt=8),
           scn(7, ctx.seed, pull=True, chunks=30, bounceSide="R", bounceAt=8)]
    for i in range(len(out), n):
        r = ctx.rng
        chunks = r.randint(4, 48)
        limits = []
        if r.random() < 0.5:
            k = r.randint(1, 3)
            total = chunks * 1024
            cuts = sorted(r.sample(range(1500, max(1600, total)), min(k, max(1, (total - 1500) // 1100))))
            limits = cuts + [0]
        bounce = r.random() < bounce_share
        s = scn(i, ctx.seed, pull=r.random() < 0.5, chunks=chunks, dupEvery=r.choice([0, 0, 3, 5]), srcStore=r.random() < 0.4, dstStore=r.random() < 0.4, limits=limits,
                reqFin=r.random() < 0.4, pauseSide="" if bounce else r.choice(["", "", "I", "R"]), pauseAt=r.randint(1, max(1, chunks // 2)),
                bounceSide=r.choice(["I", "R"]) if bounce else "", bounceAt=r.randint(2, max(2, chunks // 2)))
        if bounce:
            s["limits"], s["reqFin"] = [], False
            s["chunks"] = max(s["chunks"], 24)
        if not bounce and r.random() < 0.3:      # same-process restart (no bounce), often with per-channel stores
            s["restartSide"], s["restartAt"] = r.choice(["I", "R"]), r.randint(1, max(1, chunks // 3))
            s["pauseSide"], s["limits"], s["reqFin"] = "", [], False
            s["dstStore"] = s["dstStore"] or r.random() < 0.6
            s["chunks"] = max(s["chunks"], 20)
        out.append(s)
    return out


SYS_CFG = """SPECIFICATION Spec
CONSTANTS
 OutFile = "unused"
 Family = "all"
 Roles = {"initPush"}
 Statuses = {"Requested"}
 Dir = "%s"
 NBlocks = %d
 LimitsId = "%s"
 ReqFin = %s
 MaxPauses = %d
 MaxRestarts = %d
 MaxCloses = %d
 MaxVouchers = %d
 MaxBounces = %d
 OldEnds = %s
 MaxSendFails = %d
 MaxSkip = 12
 MaxLen = %d
 DumpAtEnd = %s
%s
"""


def sys_model(ctx):
    """exhaustive two-node model (Sys.tla): C01_Delivered / C03_OnlyBoth over all interleavings of message deliveries, graphsync steps, app pauses and re-validations"""
    # (direction, limits, finalization, app pauses, restarts): pauses/limits and restarts are explored in separate configurations (their product does not finish)
    ALL_OLD = '{"cancelled","error","silent"}'
    if ctx.quick():
        combos = [("push", "l2", "TRUE", 1, 0, 0, "{}"), ("pull", "l2", "FALSE", 1, 0, 0, "{}"),
                  ("push", "none", "FALSE", 0, 1, 0, ALL_OLD), ("pull", "none", "TRUE", 0, 1, 0, ALL_OLD),
                  ("push", "none", "TRUE", 0, 0, 1, "{}"), ("pull", "l2", "FALSE", 0, 0, 1, "{}")]
    else:
        combos = [(d, l, f, 1, 0, 0, "{}") for d in ("push", "pull") for l in ("none", "l2", "l2_4") for f in ("FALSE", "TRUE")] + \
                 [(d, l, f, 0, 1, 0, ALL_OLD) for d in ("push", "pull") for l in ("none", "l3") for f in ("FALSE", "TRUE")] + \
                 [(d, l, f, 0, 0, 1, "{}") for d in ("push", "pull") for l in ("none", "l2") for f in ("FALSE", "TRUE")] + \
                 [(d, "none", f, 0, 2, 0, '{"error"}') for d in ("push", "pull") for f in ("FALSE", "TRUE")] + \
                 [(d, "none", "FALSE", 1, 1, 1, '{"cancelled","error"}') for d in ("push", "pull")]
    combos = [c + (0,) for c in combos] + ([("push", "none", "TRUE", 0, 0, 0, "{}", 1), ("pull", "l2", "FALSE", 0, 0, 0, "{}", 1)] if ctx.quick() else
                                           [(d, l, f, 0, 0, 0, "{}", 1) for d in ("push", "pull") for l in ("none", "l2") for f in ("FALSE", "TRUE")] +
                                           [(d, "none", "TRUE", 0, 1, 0, '{"error"}', 1) for d in ("push", "pull")])
    # process bounces: one bounce of either node + one application restart (the superseded request ends late at the other side, or silently)
    combos = [c + (0,) for c in combos] + ([("push", "none", "FALSE", 0, 1, 0, '{"cancelled","silent"}', 0, 1), ("pull", "l2", "TRUE", 0, 1, 0, '{"cancelled","silent"}', 0, 1)] if ctx.quick() else
                                           [(d, l, f, 0, 1, 0, ALL_OLD, 0, 1) for d in ("push", "pull") for l in ("none", "l2") for f in ("FALSE", "TRUE")])
    # failing sends: one SendMessage of either node fails (the message is not delivered, the manager sees the error); one restart may heal
    combos = [c + (0,) for c in combos] + ([("push", "none", "TRUE", 0, 1, 0, "{}", 0, 0, 1), ("pull", "l2", "FALSE", 0, 1, 0, "{}", 0, 0, 1)] if ctx.quick() else
                                           [(d, l, f, 0, 1, 0, '{"error"}', 0, 0, 1) for d in ("push", "pull") for l in ("none", "l2") for f in ("FALSE", "TRUE")])
    for d, l, f, np, nr, ncl, olds, nv, nb, nsf in combos:
        cfg = stages.write_cfg(ctx, "sys-%s-%s-%s-%d-%d-%d-%d-%d-%d.cfg" % (d, l, f, np, nr, ncl, nv, nb, nsf), SYS_CFG % (d, 4, l, f, np, nr, ncl, nv, nb, olds, nsf, 80, "FALSE", "INVARIANTS C01_Delivered C03_OnlyBoth C19_CrossLogs\nVIEW View\nCONSTRAINT Constr"))
        res = ctx.tlc("Sys", cfg, timeout=1800, heap="8g")
        if res.violated:
            raise vlib.Inconclusive("Sys model violates %s (%s %s %s pauses=%d restarts=%d closes=%d old=%s): model-level counterexample, not a verdict\n%s" % (res.violated, d, l, f, np, nr, ncl, olds, res.out[-2500:]))
        vlib.tlc_must_pass(res, "Sys %s %s %s %d %d %d" % (d, l, f, np, nr, ncl))
        ctx.add_model(res)


def sys_replay(ctx, prefixes=None, n_quick=25, n_thorough=120):
    """TLC-simulated behaviours of Sys.tla replayed step by step on two real managers"""
    cases = []
    k = 0
    n_per = n_quick if ctx.quick() else n_thorough
    prefixes = prefixes if prefixes else ["C01."]
    combos = [(d, l, f) for d in ("push", "pull") for l in ("none", "l2_4") for f in ("FALSE", "TRUE")]
    if ctx.quick():
        combos = combos[ctx.seed % 2::2]
    for d, l, f in combos:
        cfg = stages.write_cfg(ctx, "sys-sim-%s-%s-%s.cfg" % (d, l, f), SYS_CFG % (d, 4, l, f, 1, 1, 1 if k % 2 else 0, 1, 1 if k % 3 == 0 else 0, '{"cancelled","error","silent"}', 1 if k % 2 == 1 else 0, 110, "TRUE", ""))
        res = ctx.tlc("Sys", cfg, workers=1, simulate="num=%d" % n_per, depth=120, seed=ctx.seed * 31 + k, timeout=900, heap="6g")
        k += 1
        if res.timeout or "Error:" in res.out:
            raise vlib.Inconclusive("Sys simulation failed:\n" + res.out[-2000:])
        got = stages.parse_cases(res.out)
        for i, c in enumerate(got):
            c["case"] = "sys-%s-%s-%s-%d" % (d, l, f, i)
            cases.append(c)
    if not cases:
        raise vlib.Inconclusive("Sys simulation produced no behaviours")
    cp = ctx.path("syscases.ndjson")
    vlib.write_ndjson(cp, cases)
    b = ctx.go_bin("mgrx")
    out = ctx.path("sysobs.ndjson")
    tdir = ctx.path("sys-traces")
    os.makedirs(tdir, exist_ok=True)
    ctx.must_run_go(b, "TestSys", env={"VERIF_CASES": cp, "VERIF_OUT": out, "VERIF_TRACE": tdir}, timeout=1500)
    # the same replays, seen from inside the two channel engines (hook lines), as behaviours of Chan.tla
    gsx_chantrace(ctx, tdir, prefixes, label="sys-replay")
    n, verdicts = stages.judge(ctx, out, module="SysJudge")
    idx = stages.index_obs(out)
    completed = 0
    for v in verdicts:
        c = idx[v["case"]]
        if v["rule"] == "harness":
            raise vlib.Inconclusive("harness error in %s" % v["case"])
        if v["rule"] == "conf":
            ctx.drift.append({"case": v["case"], "note": "final records of the two real managers differ from Sys.tla", "expA": c["expA"]["status"], "gotA": c["finalA"]["status"], "expB": c["expB"]["status"], "gotB": c["finalB"]["status"]})
            continue
        if not any(v["rule"].startswith(p) for p in prefixes):
            continue
        ctx.violation({"rule": v["rule"], "dir": v["op"], "mode": "two-node-replay"}, "%s violated in a Sys.tla behaviour replayed on two real managers (case %s)" % (v["rule"], v["case"]),
                      detail={"steps": [(s["node"], s["obs"]["stim"]["kind"], s["obs"]["stim"]["msg"]["kind"], s["obs"]["ret"]) for s in c["steps"]], "finalA": c["finalA"], "finalB": c["finalB"]})
    for c in idx.values():
        ctx.traces += 1
        ctx.evaluations += len(c["steps"])
        if c["finalA"]["status"] == "Completed":
            completed += 1
            ctx.distinct.add(("sys", c["dir"], len(c["steps"]), c["finalB"]["status"], c["finalA"]["queued"], c["finalB"]["queued"]))
    ctx.extra["sys_behaviours_replayed"] = n
    ctx.extra["sys_behaviours_completed"] = completed
    sys_histories(ctx, out, prefixes)
    for c in list(idx.values())[:1]:
        ctx.sample({"kind": "two-node replay", "case": c["case"], "steps": [(s["node"], s["obs"]["stim"]["kind"], s["obs"]["stim"]["msg"]["kind"]) for s in c["steps"]][:40], "finalA": c["finalA"]["status"], "finalB": c["finalB"]["status"]})


def sys_histories(ctx, obsfile, prefixes):
    """every manager of every two-node replay as ONE-NODE history for the manager judge: each step of the composed run is a stimulus on
    one real manager, so Mgr!Handle (conformance) and every per-step rule of MgrJudge apply to it - on states and message sequences that
    the two real managers produced for each other, not ones a table seeded"""
    hist = []
    for c in vlib.read_ndjson(obsfile):
        if c.get("err"):
            continue
        for node in ("A", "B"):
            steps = []
            for s in c["steps"]:
                if s["node"] != node:
                    continue
                o = dict(s["obs"])
                if o["stim"]["kind"] == "reopen":
                    o["stim"] = dict(o["stim"], rereg=True)
                o["i"] = len(steps) + 1
                steps.append(o)
            if steps:
                hist.append({"case": "%s@%s" % (c["case"], node), "self": node, "types": ["vt"], "steps": steps})
    if not hist:
        raise vlib.Inconclusive("no two-node history to judge")
    hp = ctx.path("sys-histories-%d.ndjson" % len(ctx.stages))
    vlib.write_ndjson(hp, hist)
    n, verdicts = stages.judge(ctx, hp, module="MgrJudge")
    idx = stages.index_obs(hp)
    stages.classify_mgr(ctx, verdicts, prefixes, idx, "two-node history")
    ctx.traces += n
    ctx.evaluations += sum(len(h["steps"]) for h in hist)
    ctx.extra["sys_node_histories_judged"] = n
    return n


def gsx_chantrace(ctx, tdir, prefixes, label="gsx"):
    import glob
    lines = []
    for f in sorted(glob.glob(os.path.join(tdir, "trace-*.ndjson"))):
        lines += vlib.read_ndjson(f)
    if not lines:
        raise vlib.Inconclusive("the verif hook recorded nothing during the real two-node runs")
    return stages.chan_trace(ctx, lines, prefixes, label)


def gsx_traces(ctx, prefixes, n):
    """n real two-node scenarios run only to record hook lines, validated against Chan.tla (used by other properties' thorough tiers)"""
    scns = gen(ctx, n)
    cp = ctx.path("scn-tr.ndjson")
    vlib.write_ndjson(cp, scns)
    b = ctx.go_bin("gsx")
    out = ctx.path("gsxobs-tr.ndjson")
    tdir = ctx.path("gsx-traces-tr")
    os.makedirs(tdir, exist_ok=True)
    ctx.must_run_go(b, "TestScenarios", env={"VERIF_CASES": cp, "VERIF_OUT": out, "VERIF_TRACE": tdir}, timeout=3000)
    return gsx_chantrace(ctx, tdir, prefixes)


def run(ctx):
    sys_model(ctx)
    sys_replay(ctx)
    # manager level: every stimulus on every status - a responder whose channel already failed or was cancelled never sends an accepted Complete
    stages.mgr_family(ctx, ["C01."], ["all"], lambda s: s["stim"]["kind"] in ("OnChannelCompleted", "UpdateValidation", "SendVoucherResult"), quick_n=1500, model=False, sims=False,
                      keep=lambda l: any(k in l for k in ('"kind":"OnChannelCompleted"', '"kind":"SendVoucherResult"', '"kind":"UpdateValidation"')))
    ctx.rule = ("REAL two-node transfers (two real managers, real graphsync transport, real libp2p adapter over mocknet): scenarios draw direction, payload (random bytes, duplicate blocks), "
                "default/per-channel stores on either side, validator behaviour (successive data limits with re-validation, finalization), pause/resume by either side at a progress point, "
                "and process bounce + restart of either side; both subscriber streams, final states and a DAG walk of the receiver's actual block store (at the instant of Completed and at "
                "quiescence) are judged by C01Judge; non-trivial = scenario that completed on the initiator; distinct by (direction, stores, #limits, reqFin, pause side, bounce side)")
    ctx.assumptions += ["graphsync delivers what it reports; payload DAGs are sampled (unixfs files with duplicate chunks), not enumerated",
                        "wall-clock run: a scenario that does not quiesce within its budget is not a verdict (counted in evidence as not quiesced)"]
    n = 16 if ctx.quick() else 150
    scns = gen(ctx, n)
    cp = ctx.path("scn.ndjson")
    vlib.write_ndjson(cp, scns)
    b = ctx.go_bin("gsx")
    out = ctx.path("gsxobs.ndjson")
    tdir = ctx.path("gsx-traces")
    os.makedirs(tdir, exist_ok=True)
    ctx.must_run_go(b, "TestScenarios", env={"VERIF_CASES": cp, "VERIF_OUT": out, "VERIF_TRACE": tdir}, timeout=3000)
    # the same real runs as behaviours of Chan.tla (hook lines of both managers; trace specification ChanTrace.tla)
    gsx_chantrace(ctx, tdir, ["C01."])
    nj, verdicts = stages.judge(ctx, out, module="C01Judge")
    idx = stages.index_obs(out)
    harness_errs = []
    for v in verdicts:
        c = idx[v["case"]]
        if v["rule"] == "harness":
            harness_errs.append((v["case"], c["err"]))
            continue
        if not (v["rule"].startswith("C01.")):
            ctx.drift.append({"case": v["case"], "rule": v["rule"], "note": "two-party formula of another property failed in a C01 run (reported by that property's own check if claimed there)"})
            continue
        s = c["scn"]
        key = {"rule": v["rule"], "dir": v["op"], "bounceSide": s["bounceSide"]}
        if s.get("restartSide"):
            key["restartSide"] = s["restartSide"]
        ctx.violation(key, "%s violated in real two-node %s transfer (case %s, bounce=%s): I=%s R=%s hasAll=%s senderQueued=%s receiverReceived=%s unique=%s" % (
            v["rule"], v["op"], v["case"], s["bounceSide"] or "-", c["finalI"]["status"], c["finalR"]["status"], c["hasAll"],
            c["finalR"]["queued"] if s["pull"] else c["finalI"]["queued"], c["finalI"]["received"] if s["pull"] else c["finalR"]["received"], c["uniqueBytes"]),
            detail={"scenario": s, "I": [(e["seq"], e["ev"], e["status"]) for e in c["i"] if not e["ev"].startswith("Data") or "Limit" in e["ev"]],
                    "R": [(e["seq"], e["ev"], e["status"], e["msg"][:80]) for e in c["r"] if not e["ev"].startswith("Data") or "Limit" in e["ev"]]})
    done = 0
    for c in idx.values():
        ctx.traces += 1
        ctx.evaluations += len(c["i"]) + len(c["r"])
        s = c["scn"]
        if c["finalI"]["status"] == "Completed":
            done += 1
            ctx.distinct.add((s["pull"], s["srcStore"], s["dstStore"], len(s["limits"]), s["reqFin"], s["pauseSide"], s["bounceSide"], s.get("restartSide", ""), s["dupEvery"] > 0))
    ctx.extra["scenarios"] = nj
    ctx.extra["scenario_harness_errors"] = harness_errs[:5]
    if len(harness_errs) > max(2, nj // 4):
        raise vlib.Inconclusive("too many scenarios failed in the harness itself: %s" % harness_errs[:3])
    ctx.extra["completed_on_initiator"] = done
    ctx.extra["not_quiesced"] = sum(1 for c in idx.values() if not c["quiesced"])
    ctx.states += sum(len(c["i"]) + len(c["r"]) for c in idx.values())
    ctx.transitions += sum(len(c["i"]) + len(c["r"]) for c in idx.values())
    if done < max(3, nj // 3):
        raise vlib.Inconclusive("only %d of %d scenarios completed on the initiator: the driver is not exercising the property" % (done, nj))
    for c in list(idx.values())[:2]:
        ctx.sample({"scenario": c["scn"], "finalI": c["finalI"]["status"], "finalR": c["finalR"]["status"], "hasAll": c["hasAll"], "bytesEqual": c["bytesEqual"],
                    "uniqueBytes": c["uniqueBytes"], "I_events": [e["ev"] for e in c["i"] if not e["ev"].startswith("Data")][:20]})

"""C06 Channel state is durable and prefix-consistent across crashes."""
import os, copy
import stages, chancfg, vlib


def merge_pairs(ctx, cases):
    """two single-channel histories -> one two-channel history with interleaved steps (reopen steps dropped: every write boundary is a crash point anyway)."""
    out = []
    for i in range(0, len(cases) - 1, 2):
        a, b = copy.deepcopy(cases[i]), copy.deepcopy(cases[i + 1])
        b["chans"][0]["name"] = "c2"
        for s in b["steps"]:
            s["c"] = "c2"
        sa = [s for s in a["steps"] if s["op"] != "reopen"]
        sb = [s for s in b["steps"] if s["op"] != "reopen"]
        steps = []
        while sa or sb:
            src = sa if (sa and (not sb or ctx.rng.random() < 0.5)) else sb
            steps.append(src.pop(0))
        out.append({"case": a["case"] + "+" + b["case"], "chans": a["chans"] + b["chans"], "steps": steps})
    return out


def run(ctx):
    ctx.rule = ("TLC-simulated operation histories over one and two channels (ChanSeq, 4 roles, with/without endings, map-valued vouchers) run on the real channel engine over a recording datastore; "
                "the store is reopened with a fresh engine at EVERY write boundary; the accessor view after reopen must equal, field by field, the subscriber snapshot taken when that write's event "
                "was applied (C06.prefix/accessors), listed channels = created (C06.listed), every query result equals the image at that point (C06.durableQuery), cleanup statuses finish cleanup on "
                "restart (C06.cleanupResumes); non-trivial = crash image containing at least one applied event; distinct by (status at image, #events, channel count)")
    ctx.assumptions += ["datastore Put is atomic (a crash never leaves a torn value)", "stage logs compared by number of stages only"]
    # design level: Chan with crashes: the store only ever holds a record that was planned (prefix of applied events)
    res = stages.model_chan(ctx, chancfg.chan_cfg(ops=chancfg.RESP_LIFE, init=(), max_ops=3 if ctx.quick() else 4, crashes=1, guard="any",
                                                  invariants=["TypeOK", "C06_Prefix"], properties=["C02_Final", "C19_AppendOnly", "C07_Monotone", "C06_OnlyPersistWrites"]), "chan-c06")
    if res.violated:
        raise vlib.Inconclusive("Chan model violates %s\n%s" % (res.violated, res.out[-1500:]))
    vlib.tlc_must_pass(res, "Chan C06")
    ctx.add_model(res)
    npr, ln = (5, 12) if ctx.quick() else (60, 22)
    singles = stages.gen_seqs(ctx, npr, ln, tag="crash")
    pairs = merge_pairs(ctx, stages.gen_seqs(ctx, max(2, npr // 2), ln, roles=["initPush", "respPush"], tag="crashp"))
    # codec boundary inputs: the same histories with one error-carrying event whose text is long (around and beyond the 8 KiB string
    # limit of the record codec): whatever the engine does with it, every write boundary must still reopen to a state that was current
    longs = []
    for c in singles[::3]:
        c2 = copy.deepcopy(c)
        c2["case"] += "+long"
        for ch in c2["chans"]:
            ch["ident"]["tid"] += 500000
        steps = [s for s in c2["steps"] if s["op"] != "reopen"]
        pos = ctx.rng.randrange(len(steps) // 2, len(steps) + 1)
        op = ctx.rng.choice(["Error", "Disconnected", "SendDataError", "ReceiveDataError", "RequestCancelled"])
        args = dict(steps[0]["args"], err="@long:%d" % ctx.rng.choice([8000, 8193, 9000, 20000, 66000]))
        steps.insert(pos, {"c": steps[0]["c"], "op": op, "args": args})
        c2["steps"] = steps
        longs.append(c2)
    cases = singles + pairs + longs
    cp = ctx.path("crashcases.ndjson")
    vlib.write_ndjson(cp, cases)
    b = ctx.go_bin("chanx")
    out = ctx.path("crashobs.ndjson")
    ctx.must_run_go(b, "TestCrash", env={"VERIF_CASES": cp, "VERIF_OUT": out}, timeout=1500)
    n, verdicts = stages.judge(ctx, out, module="C06Judge")
    idx = stages.index_obs(out)
    for v in verdicts:
        if v["rule"] == "harness":
            raise vlib.Inconclusive("harness error in %s" % v["case"])
        c = idx[v["case"]]
        im = [x for x in c["images"] if x["k"] == v["i"]]
        ctx.violation({"rule": v["rule"], "kind": v["op"]}, "%s violated in case %s at write boundary %s" % (v["rule"], v["case"], v["i"]),
                      detail={"verdict": v, "image": im[:1], "hist": c["hist"], "ops": [(s["op"], s["args"]) for s in c["steps"]]})
    images = 0
    for c in idx.values():
        ctx.traces += 1
        for im in c["images"]:
            images += 1
            ctx.evaluations += 1
            for ic in im["chans"]:
                if ic["j"] > 0:
                    ctx.distinct.add((ic["raw"]["status"], ic["j"], len(im["chans"]), ic["raw"]["ip"], ic["raw"]["rp"], len(ic["raw"]["vouchers"]), len(ic["raw"]["results"])))
    ctx.extra["crash_images_reopened"] = images
    ctx.extra["histories"] = n
    for c in list(idx.values())[:2]:
        ctx.sample({"case": c["case"], "ops": [s["op"] for s in c["steps"]], "writes": len(c["images"]) - 1,
                    "image_statuses": [[ic["raw"]["status"] for ic in im["chans"]] for im in c["images"]][:12]})

import stages

def chan_cfg(chans=("c1",), init=("c1",), ops=(), max_ops=4, max_q=2, data=("b1",), crashes=0, guard="quietEnding",
             invariants=(), properties=(), spec="Spec"):
    t = "SPECIFICATION %s\nCONSTANTS\n" % spec
    t += " Chans = %s\n InitChans = %s\n EnvOps = %s\n MaxOps = %d\n MaxQ = %d\n DataArgs = %s\n Crashes = %d\n EnvGuard = \"%s\"\n" % (
        stages.tla_set(chans), stages.tla_set(init), stages.tla_set(ops), max_ops, max_q, stages.tla_set(data), crashes, guard)
    if invariants:
        t += "INVARIANTS " + " ".join(invariants) + "\n"
    if properties:
        t += "PROPERTIES " + " ".join(properties) + "\n"
    t += "CONSTRAINT Constr\n"
    return t

INIT_LIFE = ["Accept", "TransferInitiated", "FinishTransfer", "ResponderCompletes", "ResponderBeginsFinalization", "Cancel", "Error",
             "PauseInitiator", "ResumeInitiator", "PauseResponder", "ResumeResponder", "Disconnected", "DataReceived", "NewVoucherResult", "Restart"]
RESP_LIFE = ["Accept", "TransferInitiated", "Complete", "BeginFinalizing", "Cancel", "Error", "PauseInitiator", "ResumeInitiator",
             "PauseResponder", "ResumeResponder", "Disconnected", "DataQueued", "NewVoucher", "SetDataLimit", "SetRequiresFinalization", "Restart"]

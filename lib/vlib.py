#!/usr/bin/env python3
"""Common machinery for the /verif checks (stdlib only).

A check is a python module lib/props/<id>.py with a function run(ctx).  It uses
  ctx.tlc(...)        run TLC (exhaustive / simulate / judge / trace validation) in a scratch dir
  ctx.go_bin(...)     (re)build a harness test binary from /repo's working tree with -tags verif
  ctx.run_go(...)     run it
  ctx.judge(...)      let TLC evaluate the property formulas on observations recorded from real code
  ctx.violation(...)  record a violation (classified against KNOWN_FINDINGS.jsonl)
and ctx.finish() writes evidence/<id>.json and yields the exit code.

Exit codes: 0 property held on everything explored (KNOWN-FINDING lines allowed),
            1 VIOLATION, 2 inconclusive (build failure, TLC error, timeout, dead driver, ...).
"""
import os, sys, json, subprocess, time, shutil, tempfile, fcntl, re, hashlib, random

VERIF = os.path.dirname(os.path.dirname(os.path.abspath(__file__)))
REPO = os.environ.get("VERIF_REPO", "/repo")
SPEC = os.path.join(VERIF, "spec")
HARNESS = os.path.join(VERIF, "harness")
BUILD = os.path.join(VERIF, ".build")
EVID = os.path.join(VERIF, "evidence")
REPLAYS = os.path.join(EVID, "replays")
GO = os.environ.get("VERIF_GO", "go1.26.8")
MODPATH = "github.com/filecoin-project/go-data-transfer/v2"
NCPU = os.cpu_count() or 4


class Inconclusive(Exception):
    pass


class Crash(Exception):
    """the harness process was brought down by the library itself (a violation has been recorded): stop and report"""
    pass


def library_panic(out):
    """Go crash output -> {"msg","func","at","stack"} if the panicking goroutine's first non-runtime frame is library code (module path of the
    repository, not the harness), else None."""
    i = out.find("\npanic: ")
    if i < 0 and out.startswith("panic: "):
        i = -1
    if i < 0 and not out.startswith("panic: "):
        return None
    body = out[i + 1:]
    msg = body.split("\n", 1)[0][len("panic: "):]
    m = re.search(r"\ngoroutine \d+[^\n]*\[running\]:\n", body)
    if not m:
        return None
    frames = []
    lines = body[m.end():].split("\n")
    k = 0
    while k + 1 < len(lines) and lines[k].strip() and not lines[k].startswith("goroutine "):
        fn = lines[k].strip()
        loc = lines[k + 1].strip() if lines[k + 1].startswith("\t") or lines[k + 1].startswith(" ") else ""
        frames.append((re.sub(r"\([^()]*\)$", "", fn), loc.split(" +")[0]))
        k += 2 if loc else 1
    for fn, loc in frames:
        if fn.startswith("panic") or fn.startswith("runtime.") or fn.startswith("created by") or fn.startswith("reflect.") or fn.startswith("sync."):
            continue
        if fn.startswith(MODPATH + "/") or fn.startswith(MODPATH + "."):
            return {"msg": msg, "func": fn[len(MODPATH):].lstrip("/."), "at": os.path.basename(loc), "stack": ["%s %s" % f for f in frames[:10]]}
        return None
    return None


def library_hang(out):
    """Go test-timeout output -> {"func","state","stack"} if some goroutine has been blocked for at least a minute INSIDE library code that a
    harness frame called synchronously (the harness made a call into the library and never got it back), else None.  Only meaningful for
    drivers whose doubles never block (opt-in per stage)."""
    if "panic: test timed out after" not in out:
        return None
    for m in re.finditer(r"\ngoroutine \d+ \[([^\]]*\d+ minutes[^\]]*)\]:\n", out):
        lines = out[m.end():].split("\n")
        frames = []
        k = 0
        while k < len(lines) and lines[k].strip() and not lines[k].startswith("goroutine "):
            if not lines[k].startswith("\t") and not lines[k].startswith("created by"):
                frames.append(re.sub(r"\([^()]*\)$", "", lines[k].strip()))
            k += 1
        lib = [f for f in frames if f.startswith(MODPATH + "/") or f.startswith(MODPATH + ".")]
        if not lib:
            continue
        first_lib = frames.index(lib[0])
        # everything above the first library frame must be runtime / sync / time plumbing, and a harness frame must sit below it
        above = frames[:first_lib]
        if any(not (f.startswith("runtime.") or f.startswith("sync.") or f.startswith("time.") or f.startswith("internal/")) for f in above):
            continue
        if not any(f.startswith("verifharness/") for f in frames[first_lib:]):
            continue
        return {"func": lib[0][len(MODPATH):].lstrip("/."), "state": m.group(1), "stack": frames[:12]}
    return None


def log(*a):
    print("[verif]", *a, file=sys.stderr, flush=True)


def evid_dir():
    a = _alt()
    return EVID if a is None else os.path.join(BUILD, "evidence-" + a)


def go_env(extra=None):
    e = dict(os.environ)
    e.update({"GOFLAGS": "-mod=mod", "GOPROXY": "off", "GOSUMDB": "off", "GOTOOLCHAIN": "local",
              "GONOSUMCHECK": "1", "GONOSUMDB": "*", "CGO_ENABLED": e.get("CGO_ENABLED", "1")})
    if extra:
        e.update(extra)
    return e


def _alt():
    """When VERIF_REPO points at a private copy of the repository (mutant testing), a private go.mod is
    used through -modfile and binaries get a suffix, so that concurrent runs do not disturb each other."""
    if os.path.abspath(REPO) == "/repo":
        return None
    return hashlib.sha1(os.path.abspath(REPO).encode()).hexdigest()[:10]


def modfile():
    a = _alt()
    if a is None:
        return os.path.join(HARNESS, "go.mod")
    return os.path.join(BUILD, "mod-" + a, "go.mod")


def ensure_gomod():
    """harness/go.mod is generated from /repo/go.mod (same require graph) + replace => /repo."""
    os.makedirs(BUILD, exist_ok=True)
    os.makedirs(os.path.dirname(modfile()), exist_ok=True)
    with open(os.path.join(BUILD, ".modlock"), "w") as lk:
        fcntl.flock(lk, fcntl.LOCK_EX)
        _write_gomod(REPO, modfile())
        main = os.path.join(HARNESS, "go.mod")
        if not os.path.exists(main):       # -modfile needs a module root: harness/go.mod must exist even for private copies
            _write_gomod("/repo", main)


def _write_gomod(REPO, target):
    if True:
        src = open(os.path.join(REPO, "go.mod")).read()
        out = []
        for line in src.splitlines():
            if line.startswith("module "):
                out.append("module verifharness")
            elif re.match(r"^go \d", line):
                out.append("go 1.26")
            elif line.startswith("toolchain "):
                continue
            else:
                out.append(line)
        out.append("")
        out.append("require %s v2.0.0-00010101000000-000000000000" % MODPATH)
        out.append("replace %s => %s" % (MODPATH, REPO))
        txt = "\n".join(out) + "\n"
        p = target
        if not os.path.exists(p) or open(p).read() != txt:
            open(p, "w").write(txt)
        s = open(os.path.join(REPO, "go.sum")).read()
        p = os.path.join(os.path.dirname(target), "go.sum")
        if not os.path.exists(p) or open(p).read() != s:
            open(p, "w").write(s)


def build_go(pkg, race=False, tags="verif"):
    """go test -c for harness package pkg; returns path of the test binary. Always rebuilds
    (the go build cache makes the unchanged case cheap) so /repo edits are picked up."""
    ensure_gomod()
    name = pkg.replace("/", "_") + ("_race" if race else "") + ("_" + _alt() if _alt() else "") + ".test"
    out = os.path.join(BUILD, name)
    cmd = [GO, "test", "-c", "-vet=off", "-tags", tags, "-o", out]
    if _alt():
        cmd.append("-modfile=" + modfile())
    if race:
        cmd.append("-race")
    cmd.append("./" + pkg)
    with open(os.path.join(BUILD, ".buildlock." + name), "w") as lk:
        fcntl.flock(lk, fcntl.LOCK_EX)
        t = time.time()
        r = subprocess.run(cmd, cwd=HARNESS, env=go_env(), stdout=subprocess.PIPE, stderr=subprocess.STDOUT, text=True)
        if r.returncode != 0:
            raise Inconclusive("go build of harness %s failed:\n%s" % (pkg, r.stdout[-4000:]))
        log("built %s in %.1fs" % (name, time.time() - t))
    return out


TLC_JAR = "/opt/veriftools/tla/tla2tools.jar"
CM_JAR = None


def _classpath():
    global CM_JAR
    if CM_JAR is None:
        d = os.path.dirname(TLC_JAR)
        jars = [os.path.join(d, f) for f in sorted(os.listdir(d)) if f.endswith(".jar") and f != "tla2tools.jar"]
        CM_JAR = ":".join([TLC_JAR] + jars)
    return CM_JAR


class TLCResult:
    def __init__(self):
        self.out = ""
        self.rc = None
        self.generated = 0
        self.distinct = 0
        self.depth = 0
        self.ok = False            # finished without error
        self.violated = None       # name of violated invariant/property, if any
        self.deadlock = False
        self.timeout = False
        self.printed = []          # values printed with PrintT (lines)
        self.dir = None


def run_tlc(scratch, module, cfg, workers=4, timeout=600, simulate=None, depth=None, seed=None,
            heap="6g", extra_files=(), deadlock=False, dfs=False, coverage=False, dump_trace=None,
            extra_args=(), spec_dir=None):
    """Run TLC on spec/<module>.tla with config cfg (path relative to spec/cfg or absolute).
    All spec files are copied into a fresh scratch dir, TLC runs there (cwd) with its own metadir."""
    spec_dir = spec_dir or SPEC
    d = tempfile.mkdtemp(prefix="tlc-", dir=scratch)
    for f in os.listdir(spec_dir):
        if f.endswith(".tla"):
            shutil.copy(os.path.join(spec_dir, f), d)
    cfgp = cfg if os.path.isabs(cfg) else os.path.join(spec_dir, "cfg", cfg)
    shutil.copy(cfgp, os.path.join(d, "run.cfg"))
    for f in extra_files:
        shutil.copy(f, d)
    jopts = ["-Xmx" + heap, "-Xss64m", "-XX:+UseParallelGC", "-Djava.io.tmpdir=" + d]
    if dfs:
        jopts.append("-Dtlc2.tool.queue.IStateQueue=StateDeque")
    cmd = ["java"] + jopts + ["-cp", _classpath(), "tlc2.TLC", "-config", "run.cfg", "-metadir", os.path.join(d, "meta"),
                              "-workers", str(workers), "-noGenerateSpecTE"]
    if not deadlock:
        cmd.append("-deadlock")
    if simulate is not None:
        cmd += ["-simulate", simulate]
        if depth:
            cmd += ["-depth", str(depth)]
    if seed is not None:
        cmd += ["-seed", str(seed)]
    if coverage:
        cmd += ["-coverage", "1"]
    if dump_trace:
        cmd += ["-dumpTrace", "json", dump_trace]
    cmd += list(extra_args)
    cmd.append(module + ".tla")
    res = TLCResult()
    res.dir = d
    env = dict(os.environ)
    env.pop("JAVA_TOOL_OPTIONS", None)
    env["TMPDIR"] = d
    t = time.time()
    try:
        r = subprocess.run(cmd, cwd=d, env=env, stdout=subprocess.PIPE, stderr=subprocess.STDOUT, text=True, timeout=timeout)
        res.out, res.rc = r.stdout, r.returncode
    except subprocess.TimeoutExpired as e:
        res.out = (e.stdout or b"").decode("utf-8", "replace") if isinstance(e.stdout, bytes) else (e.stdout or "")
        res.timeout = True
        res.rc = -1
        subprocess.run(["pkill", "-f", "metadir " + d], check=False)
    res.wall = time.time() - t
    m = None
    for m in re.finditer(r"(\d[\d,]*) states generated, (\d[\d,]*) distinct states found", res.out):
        pass
    if m:
        res.generated = int(m.group(1).replace(",", ""))
        res.distinct = int(m.group(2).replace(",", ""))
    m = re.search(r"The depth of the complete state graph search is (\d+)", res.out)
    if m:
        res.depth = int(m.group(1))
    m = re.search(r"Invariant (\S+) is violated", res.out)
    if m:
        res.violated = m.group(1)
    m2 = re.search(r"(?:Action property|Temporal properties were violated|property) ?(\S*) (?:is|was) violated", res.out)
    if not res.violated and m2:
        res.violated = m2.group(1) or "temporal"
    if "Temporal properties were violated" in res.out and not res.violated:
        res.violated = "temporal"
    if "Deadlock reached" in res.out:
        res.deadlock = True
    res.ok = (not res.timeout) and ("Model checking completed. No error has been found" in res.out
                                    or (simulate is not None and res.rc == 0 and "Error:" not in res.out))
    res.printed = [l for l in res.out.splitlines() if l.startswith('"@@') or l.startswith("<<\"@@")]
    return res


def run_apalache(scratch, module_path, args, timeout=900):
    """apalache-mc check <args> <module> in a scratch dir -> ("ok" | "violation" | "error", output tail)."""
    d = tempfile.mkdtemp(prefix="apa-", dir=scratch)
    shutil.copy(module_path, d)
    cmd = ["apalache-mc", "check", "--out-dir=" + os.path.join(d, "out")] + list(args) + [os.path.basename(module_path)]
    env = dict(os.environ)
    env["TMPDIR"] = d
    try:
        r = subprocess.run(cmd, cwd=d, env=env, stdout=subprocess.PIPE, stderr=subprocess.STDOUT, text=True, timeout=timeout)
    except subprocess.TimeoutExpired:
        return "error", "timeout"
    out = r.stdout
    if "The outcome is: NoError" in out and "EXITCODE: OK" in out:
        return "ok", out[-600:]
    if "The outcome is: Error" in out and "violated" in out:
        return "violation", out[-1200:]
    return "error", out[-1500:]


def run_tlapm(scratch, module, spec_dir=None, timeout=1200, stretch=3, mutate=None):
    """tlapm on spec/<module>.tla (all spec files copied into a scratch dir; mutate(dir) may edit the copies) -> (proved, failed, tail)."""
    spec_dir = spec_dir or SPEC
    d = tempfile.mkdtemp(prefix="tlaps-", dir=scratch)
    for f in os.listdir(spec_dir):
        if f.endswith(".tla"):
            shutil.copy(os.path.join(spec_dir, f), d)
    if mutate:
        mutate(d)
    env = dict(os.environ)
    env["TMPDIR"] = d
    try:
        r = subprocess.run(["tlapm", "--threads", str(min(8, NCPU)), "--cleanfp", "--stretch", str(stretch), module + ".tla"], cwd=d, env=env,
                           stdout=subprocess.PIPE, stderr=subprocess.STDOUT, text=True, timeout=timeout)
    except subprocess.TimeoutExpired:
        return 0, -1, "timeout"
    out = r.stdout
    m = re.search(r"All (\d+) obligations? proved", out)
    if m:
        return int(m.group(1)), 0, out[-300:]
    m = re.search(r"(\d+)/(\d+) obligations? failed", out)
    if m:
        return int(m.group(2)) - int(m.group(1)), int(m.group(1)), out[-800:]
    return 0, -1, out[-800:]


def tlc_must_pass(res, what):
    if res.timeout:
        raise Inconclusive("TLC timeout in %s" % what)
    if not res.ok:
        raise Inconclusive("TLC did not complete cleanly in %s (violated=%s):\n%s" % (what, res.violated, res.out[-3000:]))


def read_ndjson(p):
    out = []
    with open(p) as f:
        for line in f:
            line = line.strip()
            if line:
                out.append(json.loads(line))
    return out


def write_ndjson(p, rows):
    with open(p, "w") as f:
        for r in rows:
            f.write(json.dumps(r, sort_keys=True, separators=(",", ":")) + "\n")


def load_known():
    p = os.path.join(VERIF, "KNOWN_FINDINGS.jsonl")
    out = []
    if os.path.exists(p):
        for r in read_ndjson(p):
            out.append(r)
    return out


def canon(o):
    return json.dumps(o, sort_keys=True, separators=(",", ":"))


class Ctx:
    def __init__(self, prop, tier, seed, level="model_checking", replay=None):
        self.prop, self.tier, self.seed, self.level = prop, tier, seed, level
        self.replay = replay
        self.t0 = time.time()
        base = os.environ.get("VERIF_SCRATCH") or os.path.join(tempfile.gettempdir())
        self.scratch = tempfile.mkdtemp(prefix="verif-%s-" % prop, dir=base)
        self.rng = random.Random(seed)
        self.states = 0
        self.transitions = 0
        self.traces = 0
        self.evaluations = 0
        self.distinct = set()
        self.samples = []
        self.assumptions = []
        self.drift = []
        self.viol = []      # (key, what, replay_path)
        self.known_hit = []
        self.extra = {}
        self.exhaustive = False
        self.known = [k for k in load_known() if k.get("property") == prop and k.get("status") == "known"]
        self.rule = ""
        self.stages = []

    # ---- helpers -------------------------------------------------------
    def quick(self):
        return self.tier == "quick"

    def tlc(self, module, cfg, **kw):
        kw.setdefault("workers", 4 if self.quick() else min(16, NCPU))
        res = run_tlc(self.scratch, module, cfg, **kw)
        self.stages.append({"tlc": module, "cfg": os.path.basename(cfg), "generated": res.generated, "distinct": res.distinct,
                            "wall_s": round(res.wall, 1), "ok": res.ok, "simulate": kw.get("simulate")})
        return res

    def add_model(self, res):
        self.states += res.distinct
        self.transitions += res.generated

    def go_bin(self, pkg, race=False):
        return build_go(pkg, race=race)

    def run_go(self, binpath, test, env=None, timeout=900, args=()):
        e = go_env({"TMPDIR": self.scratch, "VERIF_SEED": str(self.seed), "VERIF_TIER": self.tier,
                    "GOLOG_LOG_LEVEL": "fatal", "GOLOG_OUTPUT": "stderr"})
        if env:
            e.update({k: str(v) for k, v in env.items()})
        cmd = [binpath, "-test.run", "^" + test + "$", "-test.count=1", "-test.timeout", "%ds" % timeout] + list(args)
        t = time.time()
        try:
            r = subprocess.run(cmd, cwd=self.scratch, env=e, stdout=subprocess.PIPE, stderr=subprocess.STDOUT, text=True, timeout=timeout + 30)
        except subprocess.TimeoutExpired:
            raise Inconclusive("harness %s %s timed out" % (os.path.basename(binpath), test))
        self.stages.append({"go": os.path.basename(binpath), "test": test, "rc": r.returncode, "wall_s": round(time.time() - t, 1)})
        return r

    def must_run_go(self, binpath, test, env=None, timeout=900, args=(), hang_rule=None):
        r = self.run_go(binpath, test, env=env, timeout=timeout, args=args)
        if r.returncode != 0:
            lh = library_hang(r.stdout) if hang_rule else None
            if lh:
                # a call the driver made into the library has not returned for minutes although none of the driver's doubles ever blocks
                # (virtual time): something the real code did, not a dead driver
                self.violation({"rule": hang_rule, "func": lh["func"]},
                               "%s: a call made by harness %s %s never returned: blocked in %s [%s]" % (
                                   hang_rule, os.path.basename(binpath).split("_")[0], test, lh["func"], lh["state"]), detail=lh)
                raise Crash("library call never returned: %s" % lh["func"])
            lp = library_panic(r.stdout)
            if lp:
                # the process died of a panic raised INSIDE the library (on one of its own goroutines, where no caller can recover it):
                # that is something the real code did, not a dead driver
                self.violation({"rule": self.prop + ".libraryPanic", "func": lp["func"]},
                               "%s.libraryPanic: the library panicked while harness %s %s was driving it: %s in %s (%s)" % (
                                   self.prop, os.path.basename(binpath).split("_")[0], test, lp["msg"][:200], lp["func"], lp["at"]), detail=lp)
                raise Crash("library panic in %s" % lp["func"])
            raise Inconclusive("harness %s %s failed (rc=%d):\n%s" % (os.path.basename(binpath), test, r.returncode, r.stdout[-6000:]))
        return r

    def path(self, name):
        return os.path.join(self.scratch, name)

    def sample(self, obj, cap=6):
        if len(self.samples) < cap:
            self.samples.append(obj)

    # ---- verdicts ------------------------------------------------------
    def violation(self, key, what, detail=None):
        """key: structured signature (dict) of the failing case; compared with KNOWN_FINDINGS."""
        ck = canon(key)
        for k in self.known:
            if canon(k.get("key")) == ck:
                if ck not in [canon(x[0]) for x in self.known_hit]:
                    self.known_hit.append((key, k.get("what", what)))
                return
        if ck in [canon(v[0]) for v in self.viol]:
            return
        os.makedirs(os.path.join(evid_dir(), "replays"), exist_ok=True)
        n = len(self.viol)
        rp = os.path.join(evid_dir(), "replays", "%s-%d.json" % (self.prop, n))
        with open(rp, "w") as f:
            json.dump({"property": self.prop, "seed": self.seed, "tier": self.tier, "key": key, "what": what, "detail": detail}, f, indent=1, sort_keys=True, default=str)
        self.viol.append((key, what, rp))

    def finish(self):
        wall = time.time() - self.t0
        for key, what in self.known_hit:
            print("KNOWN-FINDING: property=%s %s" % (self.prop, what))
        for key, what, rp in self.viol:
            print("VIOLATION property=%s replay=%s" % (self.prop, rp))
            print("  what: %s" % what)
        cov = {
            "states": int(self.states), "transitions": int(self.transitions),
            "traces_validated_against_impl": int(self.traces),
            "evaluations": int(self.evaluations), "distinct_nontrivial": len(self.distinct),
            "rule": self.rule, "samples": self.samples[:8] or [{"note": "no sample recorded"}],
            "exhaustive": bool(self.exhaustive), "drift": self.drift[:50], "drift_count": len(self.drift),
            "stages": self.stages, "known_findings_hit": [canon(k) for k, _ in self.known_hit],
        }
        cov.update(self.extra)
        ev = {"property_id": self.prop, "tier": self.tier, "seed": int(self.seed), "level": self.level,
              "coverage": cov, "assumptions": self.assumptions, "wall_s": round(wall, 2), "violations": len(self.viol)}
        os.makedirs(evid_dir(), exist_ok=True)
        with open(os.path.join(evid_dir(), self.prop + ".json"), "w") as f:
            json.dump(ev, f, indent=1, sort_keys=True, default=str)
        shutil.rmtree(self.scratch, ignore_errors=True)
        return 1 if self.viol else 0

    def abort(self, msg):
        wall = time.time() - self.t0
        if self.viol:
            # a later stage could not be completed, but violations were already observed on the real code: those stand
            print("NOTE property=%s: a later stage was inconclusive (%s)" % (self.prop, msg.splitlines()[0][:300]))
            self.extra["inconclusive_stage"] = msg[:2000]
            return self.finish()
        print("INCONCLUSIVE property=%s: %s" % (self.prop, msg))
        shutil.rmtree(self.scratch, ignore_errors=True)
        return 2

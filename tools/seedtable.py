#!/usr/bin/env python3
"""tools/seedtable.py -> docs/SEEDED.md : one row per seeded change (seeded/<id>/meta.json): what it is, what it needs, which checks report it."""
import json, glob, os
rows = []
for d in sorted(glob.glob("/verif/seeded/*")):
    mp = os.path.join(d, "meta.json")
    if not os.path.exists(mp):
        continue
    m = json.load(open(mp))
    v = m.get("validation", {})
    ch = v.get("checks", {})
    det = sorted(c for c, x in ch.items() if x.get("exit") == 1 and any(l.startswith("VIOLATION") for l in x.get("lines", [])))
    known_only = sorted(c for c, x in ch.items() if x.get("exit") == 1 and not any(l.startswith("VIOLATION") for l in x.get("lines", [])))
    miss = sorted(c for c, x in ch.items() if x.get("exit") == 0)
    inc = sorted(c for c, x in ch.items() if x.get("exit") == 2)
    rule = ""
    for c in det:
        for l in ch[c].get("lines", []):
            if "what:" in l:
                import re
                mm = re.search(r"(C\d\d\.\w+)", l)
                if mm:
                    rule = mm.group(1)
                    break
        if rule:
            break
    def short(s, n):
        s = " ".join(str(s or "").split())
        return (s[:n] + "...") if len(s) > n else s
    rows.append((os.path.basename(d), m.get("property"), short(m.get("summary"), 230), short(m.get("needs"), 170), ", ".join(det) or "-", rule, ", ".join(miss + [c + " (inconclusive)" for c in inc]) or "-",
                 "yes" if v.get("suite_passes_with_change", True) else "flaky under load (see meta.json)"))
out = ["# Seeded changes (sub-agent written, property text only) and the checks that report them", "",
       "Each change compiles, passes the repository's unedited suite, and comes with a demonstration that fails with it and passes without it",
       "(`seeded/<id>/`: patch.diff, the demonstration, meta.json with what was run). `detected by` = checks whose quick tier exits 1 with a VIOLATION line",
       "when run against a scratch copy of /repo with the patch applied (`tools/seedeval.py`, `tools/reseed.py`).", "",
       "| id | prop | change | needs | detected by | first rule | not reported by | suite |", "|---|---|---|---|---|---|---|---|"]
for r in rows:
    out.append("| " + " | ".join(x.replace("|", "/") for x in r) + " |")
os.makedirs("/verif/docs", exist_ok=True)
open("/verif/docs/SEEDED.md", "w").write("\n".join(out) + "\n")
print(len(rows), "rows")

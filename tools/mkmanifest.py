#!/usr/bin/env python3
"""Regenerates MANIFEST.json from the table below (claimed checks) and properties.jsonl (everything else -> not_applicable)."""
import json, os, subprocess
V = os.path.dirname(os.path.dirname(os.path.abspath(__file__)))
CHECKS = json.load(open(os.path.join(V, "tools", "checks.json")))
props = [json.loads(l)["id"] for l in open(os.path.join(V, "properties.jsonl"))]
hooks = []
try:
    out = subprocess.run(["git", "-C", "/repo", "log", "--format=%H %s"], stdout=subprocess.PIPE, text=True).stdout
    hooks = [l.split()[0] for l in out.splitlines() if " verif-hook:" in l or l.split(" ", 1)[1].startswith("verif:")]
except Exception:
    pass
m = {"version": 1, "setup_cmd": "bin/setup",
     "hooks": {"guard": "verif", "enable": "harness test binaries are built with `go1.26.8 test -c -tags verif` against /repo through a replace directive",
               "baseline_off_cmd": "cd /repo && go test -json -vet=off -count=1 -timeout 25m ./...", "source_commits": hooks, "add_only": True},
     "engines": [{"name": "tlc+harness", "path": "bin/check", "serves_properties": sorted(CHECKS.keys()),
                  "kind_free_text": "TLA+ specifications (spec/) model-checked by TLC; TLC-generated cases replayed on the real packages by Go harnesses (harness/); observations judged by TLC (spec/*Judge.tla)"}],
     "checks": [], "not_applicable": [],
     "notes": "bin/check <id> [--tier quick|thorough] [--replay path]; exit 0 held / 1 VIOLATION / 2 inconclusive. Known findings: KNOWN_FINDINGS.jsonl. See DESIGN.md."}
for pid in props:
    if pid in CHECKS:
        c = CHECKS[pid]
        m["checks"].append({"property_id": pid, "quick_cmd": "bin/check %s --tier quick" % pid, "thorough_cmd": "bin/check %s --tier thorough" % pid,
                            "evidence_file": "evidence/%s.json" % pid, "replay_cmd_template": "bin/check %s --replay {path}" % pid, "engine": "tlc+harness",
                            "level_claimed": {"category": c["level"], "text": c["text"], "design_ref": c.get("design_ref", "DESIGN.md section 6 " + pid)},
                            "level_note": c["note"], "technique": c["technique"]})
    else:
        m["not_applicable"].append({"property_id": pid, "reason": "check not built yet (work in progress; DESIGN.md section 6 describes the planned TLA+ model and binding)"})
json.dump(m, open(os.path.join(V, "MANIFEST.json"), "w"), indent=1)
print("claimed:", sorted(CHECKS.keys()))

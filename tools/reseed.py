#!/usr/bin/env python3
"""tools/reseed.py <name> [--checks C09,C03] [--tier quick|thorough] [--seed N]
Re-runs /verif checks against an already validated seeded change (seeded/<name>/patch.diff) applied to a scratch
worktree of /repo's HEAD, and records the outcome in seeded/<name>/meta.json under validation.checks (latest run per
check) - the demonstration and the suite are not re-run (tools/seedeval.py did that when the change was accepted)."""
import sys, os, subprocess, json, shutil, tempfile, time


def sh(cmd, cwd=None, env=None, timeout=7200):
    e = dict(os.environ); e.update({"GOFLAGS": "-mod=mod", "GOPROXY": "off"})
    if env: e.update(env)
    r = subprocess.run(cmd, shell=True, cwd=cwd, env=e, stdout=subprocess.PIPE, stderr=subprocess.STDOUT, text=True, timeout=timeout)
    return r.returncode, r.stdout


def main():
    name = sys.argv[1]
    d = os.path.join("/verif/seeded", name)
    meta = json.load(open(os.path.join(d, "meta.json")))
    checks = [meta["property"]]; tier = "quick"; seed = "1"
    a = sys.argv[2:]
    for i, x in enumerate(a):
        if x == "--checks": checks = a[i + 1].split(",")
        if x == "--tier": tier = a[i + 1]
        if x == "--seed": seed = a[i + 1]
    M = tempfile.mkdtemp(prefix="reseed-")
    W = os.path.join(M, "repo")
    try:
        rc, out = sh("git -C /repo worktree add --detach %s HEAD" % W)
        assert rc == 0, out
        rc, out = sh("git apply %s" % os.path.join(d, "patch.diff"), cwd=W)
        assert rc == 0, "patch does not apply: " + out
        for c in checks:
            t = time.time()
            rcc, outc = sh("bin/check %s --tier %s" % (c, tier), cwd="/verif", env={"VERIF_REPO": W, "VERIF_SEED": seed})
            lines = [l for l in outc.splitlines() if l.startswith("VIOLATION") or l.startswith("  what:") or l.startswith("INCONCLUSIVE") or l.startswith("KNOWN-FINDING")]
            v = meta.setdefault("validation", {}).setdefault("checks", {})
            v[c] = {"tier": tier, "seed": int(seed), "exit": rcc, "wall_s": round(time.time() - t), "lines": lines[:12], "ts": time.strftime("%Y-%m-%d %H:%M"),
                    "verif_commit": subprocess.run("git -C /verif rev-parse --short HEAD", shell=True, stdout=subprocess.PIPE, text=True).stdout.strip()}
            print(name, c, tier, "exit", rcc, "%ds" % (time.time() - t))
            for l in lines[:6]:
                print("   ", l[:260])
            if rcc == 2:
                print(outc[-1500:])
        meta["validation"]["detected_by"] = sorted(c for c, v in meta["validation"]["checks"].items() if v["exit"] == 1)
        json.dump(meta, open(os.path.join(d, "meta.json"), "w"), indent=1)
    finally:
        sh("git -C /repo worktree remove --force %s" % W)
        shutil.rmtree(M, ignore_errors=True)
        sh("git -C /repo worktree prune")


main()

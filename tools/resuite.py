#!/usr/bin/env python3
"""tools/resuite.py <name>...  re-runs the repository suite against seeded/<name>/patch.diff (scratch worktree of /repo HEAD); a package that
fails is re-run alone up to 3 times (the itest package is timing-sensitive under load); records the outcome in meta.json."""
import sys, os, subprocess, json, shutil, tempfile
def sh(cmd, cwd=None, timeout=3600):
    e = dict(os.environ); e.update({"GOFLAGS": "-mod=mod", "GOPROXY": "off"})
    r = subprocess.run(cmd, shell=True, cwd=cwd, env=e, stdout=subprocess.PIPE, stderr=subprocess.STDOUT, text=True, timeout=timeout)
    return r.returncode, r.stdout
for name in sys.argv[1:]:
    d = os.path.join("/verif/seeded", name)
    meta = json.load(open(os.path.join(d, "meta.json")))
    M = tempfile.mkdtemp(prefix="resuite-"); W = os.path.join(M, "repo")
    try:
        rc, out = sh("git -C /repo worktree add --detach %s HEAD" % W); assert rc == 0, out
        rc, out = sh("git apply %s" % os.path.join(d, "patch.diff"), cwd=W); assert rc == 0, out
        rc, out = sh("go test -count=1 -vet=off ./... 2>&1 | grep '^FAIL\\|^ok\\|^---' ", cwd=W)
        failed = sorted(set(l.split()[1] for l in out.splitlines() if l.startswith("FAIL") and len(l.split()) > 1))
        still = []
        for pkg in failed:
            ok = False
            for k in range(3):
                rc2, out2 = sh("go test -count=1 -vet=off %s 2>&1 | tail -3" % pkg, cwd=W)
                if rc2 == 0 and "FAIL" not in out2:
                    ok = True; break
            if not ok:
                still.append(pkg)
        meta.setdefault("validation", {})["suite_passes_with_change"] = not still
        meta["validation"]["suite_recheck"] = {"first_run_failed": failed, "still_failing_after_3_reruns": still}
        json.dump(meta, open(os.path.join(d, "meta.json"), "w"), indent=1)
        print(name, "first-run failures:", failed, "still failing:", still)
    finally:
        sh("git -C /repo worktree remove --force %s" % W); shutil.rmtree(M, ignore_errors=True); sh("git -C /repo worktree prune")

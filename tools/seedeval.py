#!/usr/bin/env python3
"""tools/seedeval.py <prop> <seed-out-dir> <name> [--checks C09,C03] [--tier quick|thorough] [--nosuite]
Validates a seeded change (patch.diff + demonstration) in a scratch worktree of /repo's HEAD:
 builds, runs the demonstration with and without the change, runs the repository suite with the change,
 then runs the given /verif checks against the changed tree (VERIF_REPO) and records everything under
 /verif/seeded/<name>/ (patch.diff, demo files, meta.json)."""
import sys, os, subprocess, json, shutil, tempfile, glob, time, re

def sh(cmd, cwd=None, env=None, timeout=3600):
    e = dict(os.environ); e.update({"GOFLAGS": "-mod=mod", "GOPROXY": "off"})
    if env: e.update(env)
    r = subprocess.run(cmd, shell=True, cwd=cwd, env=e, stdout=subprocess.PIPE, stderr=subprocess.STDOUT, text=True, timeout=timeout)
    return r.returncode, r.stdout

def main():
    prop, src, name = sys.argv[1], sys.argv[2], sys.argv[3]
    checks = [prop]; tier = "quick"; suite = True
    for i, a in enumerate(sys.argv[4:]):
        if a == "--checks": checks = sys.argv[5 + i].split(",")
        if a == "--tier": tier = sys.argv[5 + i]
        if a == "--nosuite": suite = False
    M = tempfile.mkdtemp(prefix="seedeval-")
    W = os.path.join(M, "repo")
    res = {"property": prop, "name": name, "checks": {}, "ts": time.strftime("%Y-%m-%d %H:%M")}
    try:
        rc, out = sh("git -C /repo worktree add --detach %s HEAD" % W)
        assert rc == 0, out
        demos = [f for f in glob.glob(os.path.join(src, "*")) if os.path.basename(f) not in ("patch.diff", "meta.json", "README.txt")]
        readme = open(os.path.join(src, "README.txt")).read() if os.path.exists(os.path.join(src, "README.txt")) else ""
        meta = json.load(open(os.path.join(src, "meta.json"))) if os.path.exists(os.path.join(src, "meta.json")) else {}
        res["agent_meta"] = meta
        # where do the demo files go? README says; heuristic: look for "package X" + a path mentioned in README
        placed = []
        for d in demos:
            if not d.endswith(".go"):
                continue
            pkgdir = None
            dd = str(meta.get("demo_dir") or "").strip().strip("/").lstrip("./")
            if dd and os.path.isdir(os.path.join(W, dd)):
                pkgdir = dd
            for m in ([] if pkgdir else re.finditer(r"([\w/\.\-]*/)" + re.escape(os.path.basename(d)), readme + " " + json.dumps(meta))):
                cand = m.group(1).rstrip("/")
                if "repo/" in cand:
                    cand = cand.split("repo/", 1)[1]
                cand = cand.lstrip("./")
                if cand and os.path.isdir(os.path.join(W, cand)):
                    pkgdir = cand
                    break
            if pkgdir is None:
                for m in re.finditer(r"(?:in|into|under|at)\s+`?(?:\S*repo/)?((?:impl|channels|channelmonitor|network|transport/graphsync|message/message1_1prime|itest|channelsubscriptions)/?)`?", readme + " " + json.dumps(meta)):
                    if os.path.isdir(os.path.join(W, m.group(1))):
                        pkgdir = m.group(1).rstrip("/")
                        break
            if pkgdir is None:
                txt = open(d).read()
                pk = re.search(r"^package (\w+)", txt, re.M).group(1).replace("_test", "")
                guess = {"impl": "impl", "channels": "channels", "channelmonitor": "channelmonitor", "network": "network", "graphsync": "transport/graphsync", "message1_1": "message/message1_1prime", "itest": "itest", "datatransfer": ".", "channelsubscriptions": "channelsubscriptions"}
                pkgdir = guess.get(pk, pk)
            shutil.copy(d, os.path.join(W, pkgdir))
            placed.append((pkgdir, os.path.basename(d)))
        res["demo_placed"] = placed
        testname = None
        for pkgdir, fn in placed:
            mm = re.findall(r"^func (Test\w+)\(", open(os.path.join(W, pkgdir, fn)).read(), re.M)
            if mm: testname = (pkgdir, "|".join(mm))
        assert testname, "no demo test found"
        race = "-race " if "-race" in str(meta.get("demo_run", "")) else ""
        cmd = "go test %s-count=1 -vet=off -run '^(%s)$' ./%s/" % (race, testname[1], testname[0])
        rc0, out0 = sh(cmd, cwd=W)
        res["demo_without_change"] = {"rc": rc0, "tail": out0[-600:]}
        rc, out = sh("git apply %s" % os.path.join(src, "patch.diff"), cwd=W)
        assert rc == 0, "patch does not apply: " + out
        rcb, outb = sh("go build ./...", cwd=W)
        res["builds"] = rcb == 0
        rc1, out1 = sh(cmd, cwd=W)
        res["demo_with_change"] = {"rc": rc1, "tail": out1[-600:]}
        # remove the demo before the suite / checks (the suite must be the unedited one)
        for pkgdir, fn in placed:
            os.remove(os.path.join(W, pkgdir, fn))
        if suite:
            rcs, outs = sh("go test -count=1 -vet=off ./... 2>&1 | grep -v '^ok\\|no test files' | tail -15", cwd=W, timeout=1800)
            fails = [l for l in outs.splitlines() if l.startswith("FAIL") or l.startswith("--- FAIL")]
            if fails and all("itest" in l or l.strip() == "FAIL" for l in fails if l.startswith("FAIL")):
                rcs2, outs2 = sh("go test -count=1 -vet=off ./itest/ 2>&1 | tail -5", cwd=W, timeout=1200)
                fails = [l for l in outs2.splitlines() if l.startswith("FAIL") or l.startswith("--- FAIL")]
                outs += "\n[itest rerun]\n" + outs2
            res["suite_passes_with_change"] = not fails
            res["suite_tail"] = outs[-800:]
        for c in checks:
            t = time.time()
            rcc, outc = sh("bin/check %s --tier %s" % (c, tier), cwd="/verif", env={"VERIF_REPO": W}, timeout=5400)
            lines = [l for l in outc.splitlines() if l.startswith("VIOLATION") or l.startswith("  what:") or l.startswith("INCONCLUSIVE") or l.startswith("KNOWN-FINDING")]
            res["checks"][c] = {"tier": tier, "exit": rcc, "wall_s": round(time.time() - t), "lines": lines[:12]}
        res["detected_by"] = [c for c, v in res["checks"].items() if v["exit"] == 1]
        dst = os.path.join("/verif/seeded", name)
        os.makedirs(dst, exist_ok=True)
        for f in glob.glob(os.path.join(src, "*")):
            shutil.copy(f, dst)
        old = {}
        mp = os.path.join(dst, "meta.json")
        meta_out = {"property": prop, "needs": meta.get("needs"), "summary": meta.get("summary"), "validation": res}
        json.dump(meta_out, open(mp, "w"), indent=1)
        print(json.dumps({k: res[k] for k in ("builds", "detected_by") if k in res}), "demo without/with rc:", rc0, rc1, "suite:", res.get("suite_passes_with_change"),
              {c: (v["exit"], v["wall_s"]) for c, v in res["checks"].items()})
        for c, v in res["checks"].items():
            for l in v["lines"][:4]:
                print("   ", c, l[:200])
    finally:
        sh("git -C /repo worktree remove --force %s" % W)
        shutil.rmtree(M, ignore_errors=True)
        sh("git -C /repo worktree prune")

main()

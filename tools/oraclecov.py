#!/usr/bin/env python3
"""tools/oraclecov.py [n]  - coverage of the manager-level ORACLE (MgrJudge's property rules), measured by mutating OBSERVATIONS:
the full manager table is run on the real manager once; then, for a sample of steps, one observed output is altered (a sent message dropped,
its paused / accepted flag flipped, a transport call dropped, the return class flipped between nil and pause, the resulting status replaced)
and the judge is asked again. An altered observation that no PROPERTY rule objects to (conformance aside) is a blind spot of the rules:
a code change with that effect would only show up as drift. Prints the blind spots grouped by (stimulus, message kind, alteration)."""
import sys, os, json, copy, collections, random
sys.path.insert(0, os.path.join(os.path.dirname(os.path.dirname(os.path.abspath(__file__))), "lib"))
import vlib, stages
N = int(sys.argv[1]) if len(sys.argv) > 1 else 4000
ctx = vlib.Ctx("C04", "thorough", 1)
cases = stages.mgr_tab(ctx, "all")
obs = stages.run_mgr_scripts(ctx, cases)
rows = vlib.read_ndjson(obs)
rng = random.Random(7)
rng.shuffle(rows)
muts, meta = [], {}
OTHER = {"Requested": "Ongoing", "Ongoing": "Requested"}
for c in rows:
    st = c["steps"][0]
    if st.get("err") or st.get("panic"):
        continue
    alts = []
    sends = [i for i, n in enumerate(st["net"]) if n["what"] == "send"]
    for i in sends[:1]:
        alts.append(("dropSend", lambda s, i=i: s["net"].pop(i)))
        alts.append(("flipPaused", lambda s, i=i: s["net"][i]["msg"].__setitem__("paused", not s["net"][i]["msg"]["paused"])))
        alts.append(("flipAccepted", lambda s, i=i: s["net"][i]["msg"].__setitem__("accepted", not s["net"][i]["msg"]["accepted"])))
    trs = [i for i, t in enumerate(st["tr"]) if t["call"] != "cleanup"]
    for i in trs[:1]:
        alts.append(("dropTr:" + st["tr"][i]["call"], lambda s, i=i: s["tr"].pop(i)))
    if st["ret"] in ("nil", "pause"):
        alts.append(("flipRet", lambda s: s.__setitem__("ret", "pause" if s["ret"] == "nil" else "nil")))
    if st["reply"]["kind"] != "none":
        alts.append(("flipReplyAccepted", lambda s: s["reply"].__setitem__("accepted", not s["reply"]["accepted"])))
        alts.append(("flipReplyPaused", lambda s: s["reply"].__setitem__("paused", not s["reply"]["paused"])))
    if st["t"]["hasPost"] and st["t"]["hasPre"] and st["t"]["post"]["status"] != st["t"]["pre"]["status"]:
        alts.append(("keepStatus", lambda s: (s["t"]["post"].__setitem__("status", s["t"]["pre"]["status"]), s["t"]["postView"].__setitem__("status", s["t"]["pre"]["status"]))))
    for name, f in alts:
        c2 = copy.deepcopy(c)
        c2["case"] = "%s#%s" % (c["case"], name)
        try:
            f(c2["steps"][0])
        except Exception:
            continue
        muts.append(c2)
        s0 = c["steps"][0]
        meta[c2["case"]] = (s0["stim"]["kind"], s0["stim"]["msg"]["kind"], name, s0["t"]["pre"]["status"] if s0["t"]["hasPre"] else "none")
    if len(muts) >= N:
        break
mp = ctx.path("mutobs.ndjson")
vlib.write_ndjson(mp, muts)
n, verdicts = stages.judge(ctx, mp, module="MgrJudge")
hit = collections.defaultdict(set)
for v in verdicts:
    if v["rule"] not in ("conf", "harness"):
        hit[v["case"]].add(v["rule"])
blind = collections.Counter()
total = collections.Counter()
for k, m in meta.items():
    total[m[:3]] += 1
    if not hit.get(k):
        blind[m[:3]] += 1
print("altered observations:", len(muts), " objected to by a property rule:", sum(1 for k in meta if hit.get(k)))
for k, b in sorted(blind.items(), key=lambda x: -x[1]):
    print("%-22s %-14s %-18s blind %4d / %4d" % (k[0], k[1], k[2], b, total[k]))
